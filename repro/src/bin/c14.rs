//! C14 known finding: tasks enqueued after (or still queued at) shutdown are never run nor dropped,
//! so their JoinHandle never resolves while a Scheduler keeps the pool state alive.
use std::sync::mpsc;
use std::thread;
use std::time::Duration;

use futures::executor::block_on;
use vicinal::Pool;

fn watchdog<F: FnOnce() + Send + 'static>(f: F) -> &'static str {
    let (tx, rx) = mpsc::channel();
    thread::spawn(move || {
        f();
        let _ = tx.send(());
    });
    match rx.recv_timeout(Duration::from_secs(3)) {
        Ok(()) => "completed",
        Err(_) => "HANG",
    }
}

fn main() {
    let mut all = true;
    let mut rep = |key: &str, o: &str| {
        println!("{} {key} -> {o}", if o == "HANG" { "REPRODUCED" } else { "not-reproduced" });
        all &= o == "HANG";
    };
    rep("C14|R5.enqueue-shutdown-discipline|spawn_internal|push:regular_queue", watchdog(|| {
        let pool = Pool::new();
        let s = pool.scheduler();
        drop(pool);
        let _ = block_on(s.spawn(|| 1));
    }));
    rep("C14|R5.enqueue-shutdown-discipline|spawn_internal|push:urgent_queue", watchdog(|| {
        let pool = Pool::new();
        let s = pool.scheduler();
        drop(pool);
        let _ = block_on(s.spawn_urgent(|| 1));
    }));
    rep("C14|R5.enqueue-shutdown-discipline|shutdown-drains-queues", watchdog(|| {
        // occupy both workers of this processor, queue a third task, shut down, release the workers
        many_cpus::SystemHardware::current()
            .processors()
            .to_builder()
            .take(std::num::NonZero::new(1).unwrap())
            .unwrap()
            .pin_current_thread_to();
        let pool = Pool::new();
        let s = pool.scheduler();
        let (go_tx, go_rx) = mpsc::channel::<()>();
        let go_rx = std::sync::Arc::new(std::sync::Mutex::new(go_rx));
        let (started_tx, started_rx) = mpsc::channel::<()>();
        let mut blockers = Vec::new();
        for _ in 0..2 {
            let go_rx = go_rx.clone();
            let started_tx = started_tx.clone();
            blockers.push(s.spawn(move || {
                started_tx.send(()).unwrap();
                let _ = go_rx.lock().unwrap().recv_timeout(Duration::from_secs(2));
            }));
        }
        // wait until both workers are busy (if they run on this processor); then queue one more
        let _ = started_rx.recv_timeout(Duration::from_secs(1));
        let _ = started_rx.recv_timeout(Duration::from_secs(1));
        let queued = s.spawn(|| 7);
        let dropper = thread::spawn(move || drop(pool));
        thread::sleep(Duration::from_millis(200));
        let _ = go_tx.send(());
        let _ = go_tx.send(());
        dropper.join().unwrap();
        let _ = block_on(queued);
    }));
    std::process::exit(if all { 0 } else { 1 });
}

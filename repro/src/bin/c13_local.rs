//! C13 finding (region_local): a `set_local` that lands while another thread of the same region is
//! running the initialiser is overwritten by the initialiser's unconditional store; the region then
//! serves the initial value forever although a later value was written. The interleaving is forced
//! from inside the initialiser function (user code that runs between the two stores).
use std::sync::atomic::{AtomicBool, AtomicUsize, Ordering};
use std::sync::{Arc, Barrier};
use std::thread;

use region_local::RegionLocal;

static IN_INIT: AtomicUsize = AtomicUsize::new(0);
static RELEASE: AtomicBool = AtomicBool::new(false);

fn slow_initial() -> u32 {
    // we are the initialising reader: the slot is marked `Initializing`, the value is not stored yet
    IN_INIT.store(1, Ordering::SeqCst);
    while !RELEASE.load(Ordering::SeqCst) {
        thread::yield_now();
    }
    0
}

fn main() {
    let linked = linked::InstancePerThread::new(RegionLocal::new(slow_initial));
    // all threads are unpinned: on a single-region machine they share one regional slot
    let b = Arc::new(Barrier::new(2));
    let reader = {
        let linked = linked.clone();
        let b = b.clone();
        thread::spawn(move || {
            let local = linked.acquire();
            b.wait();
            local.with_local(|v| *v) // initialises the region; blocks inside the initialiser
        })
    };
    let local = linked.acquire();
    b.wait();
    while IN_INIT.load(Ordering::SeqCst) == 0 {
        thread::yield_now();
    }
    local.set_local(1); // returns: the write is complete
    RELEASE.store(true, Ordering::SeqCst);
    let first = reader.join().unwrap();
    let mut stale = 0;
    for _ in 0..1000 {
        if local.with_local(|v| *v) != 1 {
            stale += 1;
        }
    }
    println!("racing read returned {first}; later reads that still returned the initial value after set_local(1) had returned: {stale}/1000");
    println!("{} C13|R8.install-does-not-clobber-set", if stale > 0 { "REPRODUCED" } else { "not-reproduced" });
    std::process::exit(if stale > 0 { 0 } else { 1 });
}

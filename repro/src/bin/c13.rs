//! C13 finding: a write that publishes and invalidates between an initialising reader's load of the
//! latest value and its store of the regional copy is overwritten; the region then serves the stale
//! value until the next write. The interleaving is forced with a Clone hook on the value type.
use std::sync::atomic::{AtomicBool, AtomicUsize, Ordering};
use std::sync::{Arc, Barrier};
use std::thread;

use region_cached::RegionCached;

static HOOK_ARMED: AtomicBool = AtomicBool::new(false);
static IN_CLONE: AtomicUsize = AtomicUsize::new(0);
static RELEASE: AtomicBool = AtomicBool::new(false);

#[derive(Debug, PartialEq)]
struct V(u32);
impl Clone for V {
    fn clone(&self) -> Self {
        if HOOK_ARMED.swap(false, Ordering::SeqCst) {
            // we are the initialising reader, between marking the slot and storing the regional copy
            IN_CLONE.store(1, Ordering::SeqCst);
            while !RELEASE.load(Ordering::SeqCst) {
                thread::yield_now();
            }
        }
        V(self.0)
    }
}

fn main() {
    let cached = RegionCached::new(V(0));
    // all threads below are unpinned; with a single memory region (or the same one) they share a regional slot
    let b = Arc::new(Barrier::new(2));
    let reader = {
        let cached = cached.clone();
        let b = b.clone();
        thread::spawn(move || {
            HOOK_ARMED.store(true, Ordering::SeqCst);
            b.wait();
            cached.with_cached(|v| v.0) // initialises the region; blocks inside V::clone
        })
    };
    b.wait();
    while IN_CLONE.load(Ordering::SeqCst) == 0 {
        thread::yield_now();
    }
    // the write publishes V(1) and invalidates every region while the reader is inside its clone
    cached.set_global(V(1));
    RELEASE.store(true, Ordering::SeqCst);
    let first = reader.join().unwrap();
    // every write has returned and the in-flight read has finished: later reads must see V(1)
    let mut stale = 0;
    for _ in 0..1000 {
        if cached.with_cached(|v| v.0) != 1 {
            stale += 1;
        }
    }
    println!("racing read returned {first}; later reads that still returned the overwritten value: {stale}/1000");
    println!("{} C13|R3.validate-after-install", if stale > 0 { "REPRODUCED" } else { "not-reproduced" });
    std::process::exit(if stale > 0 { 0 } else { 1 });
}

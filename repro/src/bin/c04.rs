//! C04 known findings: re-entry under the pool guard (R1), poisoning (R2), split update (R3).
//! Each scenario runs on its own thread under a watchdog: HANG = deadlock reproduced.
use std::mem::MaybeUninit;
use std::panic::{catch_unwind, AssertUnwindSafe};
use std::sync::mpsc;
use std::thread;
use std::time::Duration;

use infinity_pool::*;

#[derive(Debug, PartialEq)]
enum Outcome {
    Completed,
    Panicked(String),
    Hang,
}

fn watchdog<F: FnOnce() + Send + 'static>(f: F) -> Outcome {
    let (tx, rx) = mpsc::channel();
    thread::spawn(move || {
        let r = catch_unwind(AssertUnwindSafe(f));
        let _ = tx.send(match r {
            Ok(()) => Outcome::Completed,
            Err(p) => Outcome::Panicked(
                p.downcast_ref::<String>().cloned().or_else(|| p.downcast_ref::<&str>().map(|s| s.to_string())).unwrap_or_default(),
            ),
        });
    });
    rx.recv_timeout(Duration::from_secs(3)).unwrap_or(Outcome::Hang)
}

struct NestM(Option<PooledMut<NestM>>);
struct NestS(Option<Pooled<NestS>>);
struct NestBM(Option<BlindPooledMut<NestBM>>);
struct NestBS(Option<BlindPooled<NestBS>>);
struct NestLM(Option<LocalPooledMut<NestLM>>);
struct NestLS(Option<LocalPooled<NestLS>>);
struct NestLBM(Option<LocalBlindPooledMut<NestLBM>>);
struct NestLBS(Option<LocalBlindPooled<NestLBS>>);

struct Bomb(u8);
impl Drop for Bomb {
    fn drop(&mut self) {
        if !thread::panicking() {
            panic!("bomb");
        }
    }
}

fn main() {
    std::panic::set_hook(Box::new(|_| {}));
    let mut all = true;
    let mut rep = |key: &str, o: Outcome, want_hang: bool| {
        let ok = if want_hang { o == Outcome::Hang } else { matches!(o, Outcome::Panicked(_)) };
        println!("{} {key} -> {:?}", if ok { "REPRODUCED" } else { "not-reproduced" }, o);
        all &= ok;
    };
    let g = "C04|R1.reentry|";
    // ---- handle drops: an object owning another handle of the same pool
    rep(&format!("{g}<handles::managed_mut::PooledMut<T> as std::ops::Drop>::drop|MutexGuard|U5-summary"), watchdog(|| {
        let pool = OpaquePool::with_layout_of::<NestM>();
        let leaf = pool.insert(NestM(None));
        let outer = pool.insert(NestM(Some(leaf)));
        drop(outer);
    }), true);
    rep(&format!("{g}<handles::managed::Remover as std::ops::Drop>::drop|MutexGuard|U5-summary"), watchdog(|| {
        let pool = OpaquePool::with_layout_of::<NestS>();
        let leaf = pool.insert(NestS(None)).into_shared();
        let outer = pool.insert(NestS(Some(leaf))).into_shared();
        drop(outer);
    }), true);
    rep(&format!("{g}<handles::blind_managed_mut::BlindPooledMut<T> as std::ops::Drop>::drop|MutexGuard|U5-summary"), watchdog(|| {
        let pool = BlindPool::new();
        let leaf = pool.insert(NestBM(None));
        let outer = pool.insert(NestBM(Some(leaf)));
        drop(outer);
    }), true);
    rep(&format!("{g}<handles::blind_managed::Remover as std::ops::Drop>::drop|MutexGuard|U5-summary"), watchdog(|| {
        let pool = BlindPool::new();
        let leaf = pool.insert(NestBS(None)).into_shared();
        let outer = pool.insert(NestBS(Some(leaf))).into_shared();
        drop(outer);
    }), true);
    rep(&format!("{g}<handles::local_mut::LocalPooledMut<T> as std::ops::Drop>::drop|RefMut|U5-summary"), watchdog(|| {
        let pool = LocalOpaquePool::with_layout_of::<NestLM>();
        let leaf = pool.insert(NestLM(None));
        let outer = pool.insert(NestLM(Some(leaf)));
        drop(outer);
    }), false);
    rep(&format!("{g}<handles::local::Remover as std::ops::Drop>::drop|RefMut|U5-summary"), watchdog(|| {
        let pool = LocalOpaquePool::with_layout_of::<NestLS>();
        let leaf = pool.insert(NestLS(None)).into_shared();
        let outer = pool.insert(NestLS(Some(leaf))).into_shared();
        drop(outer);
    }), false);
    rep(&format!("{g}<handles::blind_local_mut::LocalBlindPooledMut<T> as std::ops::Drop>::drop|RefMut|U5-summary"), watchdog(|| {
        let pool = LocalBlindPool::new();
        let leaf = pool.insert(NestLBM(None));
        let outer = pool.insert(NestLBM(Some(leaf)));
        drop(outer);
    }), false);
    rep(&format!("{g}<handles::blind_local::Remover as std::ops::Drop>::drop|RefMut|U5-summary"), watchdog(|| {
        let pool = LocalBlindPool::new();
        let leaf = pool.insert(NestLBS(None)).into_shared();
        let outer = pool.insert(NestLBS(Some(leaf))).into_shared();
        drop(outer);
    }), false);
    // ---- closure entry points: the closure queries / mutates the same pool
    rep(&format!("{g}opaque::pool_managed::OpaquePool::insert_with|MutexGuard|U1-closure-param"), watchdog(|| {
        let pool = OpaquePool::with_layout_of::<u64>();
        let p2 = pool.clone();
        let _h = unsafe { pool.insert_with(|u: &mut MaybeUninit<u64>| { u.write(p2.len() as u64); }) };
    }), true);
    rep(&format!("{g}opaque::pool_managed::OpaquePool::insert_with_unchecked|MutexGuard|U1-closure-param"), watchdog(|| {
        let pool = OpaquePool::with_layout_of::<u64>();
        let p2 = pool.clone();
        let _h = unsafe { pool.insert_with_unchecked(|u: &mut MaybeUninit<u64>| { u.write(p2.len() as u64); }) };
    }), true);
    rep(&format!("{g}opaque::pool_managed::OpaquePool::with_iter|MutexGuard|U1-closure-param"), watchdog(|| {
        let pool = OpaquePool::with_layout_of::<u64>();
        let _h = pool.insert(1u64);
        let p2 = pool.clone();
        let _n = pool.with_iter(|it| it.count() + p2.len());
    }), true);
    rep(&format!("{g}pinned::pool_managed::PinnedPool::insert_with|MutexGuard|U1-closure-param"), watchdog(|| {
        let pool = PinnedPool::<u64>::new();
        let p2 = pool.clone();
        let _h = unsafe { pool.insert_with(|u: &mut MaybeUninit<u64>| { u.write(p2.len() as u64); }) };
    }), true);
    rep(&format!("{g}pinned::pool_managed::PinnedPool::with_iter|MutexGuard|U1-closure-param"), watchdog(|| {
        let pool = PinnedPool::<u64>::new();
        let _h = pool.insert(1u64);
        let p2 = pool.clone();
        let _n = pool.with_iter(|it| it.count() + p2.len());
    }), true);
    rep(&format!("{g}blind::pool_managed::BlindPool::insert_with|MutexGuard|U1-closure-param"), watchdog(|| {
        let pool = BlindPool::new();
        let p2 = pool.clone();
        let _h = unsafe { pool.insert_with(|u: &mut MaybeUninit<u64>| { u.write(p2.len() as u64); }) };
    }), true);
    rep(&format!("{g}opaque::pool_local::LocalOpaquePool::insert_with|RefMut|U1-closure-param"), watchdog(|| {
        let pool = LocalOpaquePool::with_layout_of::<u64>();
        let p2 = pool.clone();
        let _h = unsafe { pool.insert_with(|u: &mut MaybeUninit<u64>| { u.write(p2.len() as u64); }) };
    }), false);
    rep(&format!("{g}opaque::pool_local::LocalOpaquePool::insert_with_unchecked|RefMut|U1-closure-param"), watchdog(|| {
        let pool = LocalOpaquePool::with_layout_of::<u64>();
        let p2 = pool.clone();
        let _h = unsafe { pool.insert_with_unchecked(|u: &mut MaybeUninit<u64>| { u.write(p2.len() as u64); }) };
    }), false);
    rep(&format!("{g}opaque::pool_local::LocalOpaquePool::with_iter|Ref|U1-closure-param"), watchdog(|| {
        let pool = LocalOpaquePool::with_layout_of::<u64>();
        let _h = pool.insert(1u64);
        let p2 = pool.clone();
        let _n = pool.with_iter(|it| { let n = it.count(); let _h2 = p2.insert(2u64); n });
    }), false);
    rep(&format!("{g}pinned::pool_local::LocalPinnedPool::insert_with|RefMut|U1-closure-param"), watchdog(|| {
        let pool = LocalPinnedPool::<u64>::new();
        let p2 = pool.clone();
        let _h = unsafe { pool.insert_with(|u: &mut MaybeUninit<u64>| { u.write(p2.len() as u64); }) };
    }), false);
    rep(&format!("{g}pinned::pool_local::LocalPinnedPool::with_iter|Ref|U1-closure-param"), watchdog(|| {
        let pool = LocalPinnedPool::<u64>::new();
        let _h = pool.insert(1u64);
        let p2 = pool.clone();
        let _n = pool.with_iter(|it| { let n = it.count(); let _h2 = p2.insert(2u64); n });
    }), false);
    rep(&format!("{g}blind::pool_local::LocalBlindPool::insert_with|RefMut|U1-closure-param"), watchdog(|| {
        let pool = LocalBlindPool::new();
        let p2 = pool.clone();
        let _h = unsafe { pool.insert_with(|u: &mut MaybeUninit<u64>| { u.write(p2.len() as u64); }) };
    }), false);
    // ---- R2: a panicking destructor under the mutex poisons it; later operations panic
    let p = "C04|R2.poison|";
    rep(&format!("{p}<handles::managed_mut::PooledMut<T> as std::ops::Drop>::drop|MutexGuard|U5-summary"), watchdog(|| {
        let pool = OpaquePool::with_layout_of::<Bomb>();
        let h = pool.insert(Bomb(1));
        let _ = catch_unwind(AssertUnwindSafe(move || drop(h)));
        let _ = pool.len();
    }), false);
    rep(&format!("{p}<handles::managed::Remover as std::ops::Drop>::drop|MutexGuard|U5-summary"), watchdog(|| {
        let pool = OpaquePool::with_layout_of::<Bomb>();
        let h = pool.insert(Bomb(1)).into_shared();
        let _ = catch_unwind(AssertUnwindSafe(move || drop(h)));
        let _ = pool.len();
    }), false);
    rep(&format!("{p}<handles::blind_managed_mut::BlindPooledMut<T> as std::ops::Drop>::drop|MutexGuard|U5-summary"), watchdog(|| {
        let pool = BlindPool::new();
        let h = pool.insert(Bomb(1));
        let _ = catch_unwind(AssertUnwindSafe(move || drop(h)));
        let _ = pool.len();
    }), false);
    rep(&format!("{p}<handles::blind_managed::Remover as std::ops::Drop>::drop|MutexGuard|U5-summary"), watchdog(|| {
        let pool = BlindPool::new();
        let h = pool.insert(Bomb(1)).into_shared();
        let _ = catch_unwind(AssertUnwindSafe(move || drop(h)));
        let _ = pool.len();
    }), false);
    // ---- R3: split update in RawOpaquePool::remove
    let o = watchdog(|| {
        let mut pool = RawOpaquePool::with_layout_of::<Bomb>();
        let h = pool.insert(Bomb(1));
        let _ = catch_unwind(AssertUnwindSafe(|| unsafe { pool.remove(h) }));
        // nothing is alive, yet len() says 1 and iteration panics
        assert_eq!(pool.len(), 0, "len() is {} with no live object", pool.len());
    });
    rep("C04|R3.split-update|opaque::pool_raw::RawOpaquePool::remove|opaque::slab::Slab::remove", o, false);
    std::process::exit(if all { 0 } else { 1 });
}

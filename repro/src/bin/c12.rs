//! C12 findings on the pinned tree.
use std::sync::mpsc;
use std::thread;
use std::time::Duration;

#[linked::object]
struct Inner {
    v: usize,
}
impl Inner {
    fn new() -> Self {
        linked::new!(Self { v: 1 })
    }
}
#[linked::object]
struct Outer {
    v: usize,
}
impl Outer {
    fn new() -> Self {
        // the initialiser of OUTER uses another linked static
        let i = INNER.get();
        let v = i.v;
        linked::new!(Self { v })
    }
}
linked::instances! {
    static INNER: Inner = Inner::new();
    static OUTER: Outer = Outer::new();
}

#[linked::object]
struct Leaf {
    v: usize,
}
impl Leaf {
    fn new() -> Self {
        linked::new!(Self { v: 7 })
    }
}
#[linked::object]
struct UsesLeafPerInstance {
    v: usize,
}
impl UsesLeafPerInstance {
    fn new() -> Self {
        // every instance (not only the first) looks at LEAF while it is being created
        linked::new!(Self { v: LEAF.get().v })
    }
}
linked::instances! {
    static LEAF: Leaf = Leaf::new();
    static PER_INSTANCE: UsesLeafPerInstance = UsesLeafPerInstance::new();
}

#[linked::object]
struct Tok {
    v: usize,
}
impl Tok {
    fn new() -> Self {
        linked::new!(Self { v: 0 })
    }
}

fn watchdog<F: FnOnce() + Send + 'static>(f: F) -> String {
    let (tx, rx) = mpsc::channel();
    thread::spawn(move || {
        let r = std::panic::catch_unwind(std::panic::AssertUnwindSafe(f));
        let _ = tx.send(match r {
            Ok(()) => "completed".to_string(),
            Err(p) => format!(
                "panicked: {}",
                p.downcast_ref::<String>().cloned().or_else(|| p.downcast_ref::<&str>().map(|s| s.to_string())).unwrap_or_default()
            ),
        });
    });
    rx.recv_timeout(Duration::from_secs(3)).unwrap_or_else(|_| "HANG".to_string())
}

fn main() {
    std::panic::set_hook(Box::new(|_| {}));
    let r1 = watchdog(|| {
        let o = OUTER.get();
        assert_eq!(o.v, 1);
    });
    println!("{} C12|R1 nested static in initialiser: {r1}", if r1 != "completed" { "REPRODUCED" } else { "not-reproduced" });
    let r2 = watchdog(|| {
        let a = PER_INSTANCE.get();
        assert_eq!(a.v, 7);
        // a fresh thread: PER_INSTANCE is registered globally, LEAF has not been seen by this thread yet
        thread::spawn(|| {
            let b = PER_INSTANCE.get();
            assert_eq!(b.v, 7);
        })
        .join()
        .map_err(|p| p.downcast_ref::<String>().cloned().unwrap_or_default())
        .expect("second thread");
    });
    println!("{} C12|R1 nested static in instance factory (thread-local registry borrow): {r2}", if r2 != "completed" { "REPRODUCED" } else { "not-reproduced" });
    let r3 = watchdog(|| {
        let per_thread = linked::InstancePerThreadSync::new(Tok::new());
        let r = per_thread.acquire();
        thread::spawn(move || drop(r)).join().unwrap();
        drop(per_thread);
    });
    println!("{} C12|R2/R3 RefSync dropped on another thread: {r3}", if r3 != "completed" { "REPRODUCED" } else { "not-reproduced" });
}

#!/usr/bin/env python3
"""tools_ordering_sweep.py: weaken every non-Relaxed atomic ordering of the anchored crates to Relaxed, one site at a time (library
code only, text edit in /repo, reverted at once), run the crate's property checks and list the sites no check reacts to.
Hand-run coverage probe for the ordering rules; not a registered check."""
import glob, os, re, subprocess, sys
os.chdir(os.path.dirname(os.path.abspath(__file__)))
CR = {'events_once': ['C05', 'C06', 'C07'], 'events': ['C08'], 'awaiter_set': ['C08'], 'future_deque': ['C15'], 'vicinal': ['C14'],
      'region_cached': ['C13'], 'region_local': ['C13'], 'nm_impl': ['C16'], 'linked': ['C12'], 'alloc_tracker': ['C18'], 'par_bench': ['C17'],
      'infinity_pool': ['C01', 'C02', 'C03', 'C04'], 'many_cpus_impl': ['C09', 'C10', 'C11']}
only = sys.argv[1:]
assert subprocess.run(['git', '-C', '/repo', 'status', '--porcelain'], capture_output=True, text=True).stdout.strip() == ''
pat = re.compile(r'Ordering::(Acquire|Release|AcqRel|SeqCst)\b')
res = []
for crate, pids in CR.items():
    if only and crate not in only:
        continue
    for f in sorted(glob.glob(f'/repo/packages/{crate}/src/**/*.rs', recursive=True)):
        if '/tests' in f or f.endswith('tests.rs') or 'test_hooks' in f:
            continue
        src = open(f).read()
        cut = src.find('#[cfg(test)]\n#[cfg_attr(coverage_nightly')
        body = src if cut < 0 else src[:cut]
        for m in pat.finditer(body):
            line = body.count('\n', 0, m.start()) + 1
            ltxt = body.splitlines()[line - 1].strip()
            if ltxt.startswith('//'):
                continue
            mutated = src[:m.start()] + 'Ordering::Relaxed' + src[m.end():]
            open(f, 'w').write(mutated)
            fired = []
            try:
                for pid in pids:
                    r = subprocess.run(['./check', pid], capture_output=True, text=True)
                    if r.returncode == 1:
                        fired.append(pid)
                    elif r.returncode != 0:
                        fired.append(pid + '!')
            finally:
                open(f, 'w').write(src)
            rel = f.replace('/repo/packages/', '')
            print(('caught ' if fired else 'MISSED ') + f'{rel}:{line} {m.group(1)} -> Relaxed  [{ltxt[:90]}] {fired}', flush=True)
            res.append((rel, line, bool(fired)))
print(f'{sum(1 for r in res if r[2])}/{len(res)} weakened orderings caught')
subprocess.run(['git', '-C', '/repo', 'checkout', '--', '.'])

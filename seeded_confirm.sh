#!/bin/bash
# seeded_confirm.sh <worktree> <mN> <out-id> <pkgs(space sep, quoted)> <demo placement "src:dest ..."> <demo test cmd>
# Confirms in the scratch worktree: (1) existing tests of pkgs pass with the patch, (2) demo fails with
# the patch, (3) demo passes without it. Writes a log; exit 0 iff all three hold.
set -u
WT=$1; M=$2; ID=$3; PKGS=$4; PLACE=$5; DEMO=$6
LOG=/tmp/mut/confirm_$ID.log
exec >"$LOG" 2>&1
export CARGO_NET_OFFLINE=true
cd "$WT" || exit 9
git checkout -- . ; git clean -fdq -e MUTATION -e target
for pair in $PLACE; do src=${pair%%:*}; dst=${pair##*:}; mkdir -p "$(dirname "$dst")"; cp "MUTATION/$M/demo/$src" "$dst"; done
echo "=== demo WITHOUT patch"; timeout 1200 bash -c "$DEMO"; A=$?
git apply "MUTATION/$M/patch.diff" || { echo "PATCH DOES NOT APPLY"; exit 8; }
echo "=== demo WITH patch"; timeout 1200 bash -c "$DEMO"; B=$?
for pair in $PLACE; do rm -f "${pair##*:}"; done
echo "=== existing tests WITH patch"; C=0
for p in $PKGS; do timeout 3000 cargo test -p $p --offline 2>&1 | grep -E "^test result|FAILED|failed|error(\[|:)|panicked" | head -40; [ ${PIPESTATUS[0]} -eq 0 ] || C=1; done
git checkout -- . ; git clean -fdq -e MUTATION -e target
echo "RESULT demo_without=$A demo_with=$B suite_with=$C"
[ $A -eq 0 ] && [ $B -ne 0 ] && [ $C -eq 0 ]

#!/bin/bash
# seeded_setup.sh <PID> <tag> : scratch worktree /tmp/mut/<PID><tag> of /repo HEAD with MUTATION/PROPERTY.json and
# MUTATION/USED.md (one-line titles of the changes earlier rounds already produced for this property; nothing about the checks).
set -e
PID=$1; TAG=$2; WT=/tmp/mut/$PID$TAG
git -C /repo worktree add --detach "$WT" HEAD >/dev/null 2>&1
mkdir -p "$WT/MUTATION"
python3 - "$PID" "$WT" <<'P'
import json,sys,glob
pid,wt=sys.argv[1:3]
for l in open('/verif/properties.jsonl'):
    p=json.loads(l)
    if p['id']==pid: json.dump(p,open(f'{wt}/MUTATION/PROPERTY.json','w'),indent=1)
with open(f'{wt}/MUTATION/USED.md','w') as f:
    f.write('# Changes already produced by earlier rounds for this property (do NOT repeat these sites/mechanisms)\n')
    for d in sorted(glob.glob(f'/verif/seeded/{pid}_m*')):
        try: t=open(d+'/README.md').readline().strip().lstrip('# ')
        except OSError: t='(no title)'
        diff=open(d+'/patch.diff').read()
        files=sorted({l[6:] for l in diff.splitlines() if l.startswith('+++ b/')})
        f.write(f'- {t}  [{", ".join(files)}]\n')
P
echo "$WT"

#!/bin/bash
# Runs every claimed check's quick command; prints one line per property.
cd "$(dirname "$0")"
rc_all=0
for id in $(python3 -c "import json;print(' '.join(c['property_id'] for c in json.load(open('MANIFEST.json'))['checks']))"); do
  out=$(./check $id --tier ${1:-quick} 2>&1); rc=$?
  kf=$(echo "$out" | grep -c "^KNOWN-FINDING")
  echo "$id rc=$rc known=$kf $(echo "$out" | tail -1 | cut -c1-120)"
  [ $rc -ne 0 ] && { rc_all=1; echo "$out" | grep -A2 "^  violation" | head -20; }
done
exit $rc_all

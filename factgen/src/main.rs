//! factgen: a rustc_private driver that dumps per-crate "facts" (MIR bodies with resolved
//! callees and evaluated constants, ADTs, impls, statics and a trait matrix for probe
//! crates) as one JSON file per compiled crate.
//!
//! Used as RUSTC_WORKSPACE_WRAPPER: argv = [factgen, <path to rustc>, <rustc args...>].
//! Env:
//!   FACTGEN_OUT    directory to write <crate_name>.json into (required to emit anything)
//!   FACTGEN_CRATES comma separated crate names (rustc --crate-name form) to analyse
#![feature(rustc_private)]
#![allow(clippy::all)]

extern crate rustc_abi;
extern crate rustc_data_structures;
extern crate rustc_driver;
extern crate rustc_hir;
extern crate rustc_index;
extern crate rustc_infer;
extern crate rustc_interface;
extern crate rustc_middle;
extern crate rustc_session;
extern crate rustc_span;
extern crate rustc_trait_selection;

mod json;

use json::J;
use rustc_driver::{Callbacks, Compilation};
use rustc_hir::def::DefKind;
use rustc_hir::def_id::{DefId, LocalDefId};
use rustc_middle::mir::{self, *};
use rustc_middle::ty::print::{with_crate_prefix, with_no_trimmed_paths};
use rustc_middle::ty::{self, GenericArgKind, Instance, Ty, TyCtxt, TypeVisitableExt, TypingEnv};
use rustc_span::{sym, Span};
use rustc_trait_selection::infer::{InferCtxtExt, TyCtxtInferExt};
use std::sync::Mutex;

type PromotedFn = for<'tcx> fn(
    TyCtxt<'tcx>,
    LocalDefId,
) -> (
    &'tcx rustc_data_structures::steal::Steal<Body<'tcx>>,
    &'tcx rustc_data_structures::steal::Steal<rustc_index::IndexVec<Promoted, Body<'tcx>>>,
);

static ORIG_MIR_PROMOTED: Mutex<Option<PromotedFn>> = Mutex::new(None);
// Bodies of coroutines captured before they are stolen. The 'static is a lie: they
// live in the tcx arena, which outlives after_analysis.
static STASH: Mutex<Vec<(LocalDefId, usize)>> = Mutex::new(Vec::new());

fn my_mir_promoted<'tcx>(
    tcx: TyCtxt<'tcx>,
    def: LocalDefId,
) -> (
    &'tcx rustc_data_structures::steal::Steal<Body<'tcx>>,
    &'tcx rustc_data_structures::steal::Steal<rustc_index::IndexVec<Promoted, Body<'tcx>>>,
) {
    let orig = ORIG_MIR_PROMOTED.lock().unwrap().expect("orig provider saved");
    let res = orig(tcx, def);
    if tcx.is_coroutine(def.to_def_id()) {
        let body: Body<'tcx> = res.0.borrow().clone();
        let boxed: Box<Body<'tcx>> = Box::new(body);
        let ptr = Box::into_raw(boxed) as usize;
        STASH.lock().unwrap().push((def, ptr));
    }
    res
}

struct FactCallbacks {
    out_dir: String,
}

impl Callbacks for FactCallbacks {
    fn config(&mut self, config: &mut rustc_interface::Config) {
        config.override_queries = Some(|_sess, providers| {
            *ORIG_MIR_PROMOTED.lock().unwrap() = Some(providers.queries.mir_promoted);
            providers.queries.mir_promoted = my_mir_promoted;
        });
    }

    fn after_analysis<'tcx>(
        &mut self,
        _compiler: &rustc_interface::interface::Compiler,
        tcx: TyCtxt<'tcx>,
    ) -> Compilation {
        if tcx.dcx().has_errors().is_some() {
            return Compilation::Continue;
        }
        let facts = with_crate_prefix!(with_no_trimmed_paths!(dump_crate(tcx)));
        let name = tcx.crate_name(rustc_span::def_id::LOCAL_CRATE).to_string();
        let path = format!("{}/{}.json", self.out_dir, name);
        let tmp = format!("{}.tmp.{}", path, std::process::id());
        let mut s = String::new();
        facts.write(&mut s);
        std::fs::write(&tmp, s).expect("write facts");
        std::fs::rename(&tmp, &path).expect("rename facts");
        Compilation::Continue
    }
}

struct Cx<'tcx> {
    tcx: TyCtxt<'tcx>,
}

fn span_json(tcx: TyCtxt<'_>, span: Span) -> J {
    let sm = tcx.sess.source_map();
    let from_exp = span.from_expansion();
    let sp = if from_exp { span.source_callsite() } else { span };
    if sp.is_dummy() {
        return J::obj(vec![("file", J::s("")), ("line", J::i(0)), ("exp", J::b(from_exp))]);
    }
    let lo = sm.lookup_char_pos(sp.lo());
    let file = format!("{}", lo.file.name.prefer_local_unconditionally());
    J::obj(vec![
        ("file", J::s(&file)),
        ("line", J::i(lo.line as i128)),
        ("exp", J::b(from_exp)),
    ])
}

fn dpath(tcx: TyCtxt<'_>, did: DefId) -> String {
    tcx.def_path_str(did)
}

struct Owned {
    adts: Vec<String>,
    param: bool,
    dynamic: bool,
    alias: bool,
}

fn owned_walk<'tcx>(tcx: TyCtxt<'tcx>, ty: Ty<'tcx>, out: &mut Owned, depth: usize) {
    if depth > 12 {
        return;
    }
    match ty.kind() {
        ty::Adt(def, args) => {
            let p = dpath(tcx, def.did());
            let non_owning = p.ends_with("ptr::NonNull")
                || p.ends_with("marker::PhantomData")
                || p.ends_with("mem::ManuallyDrop")
                || p.ends_with("mem::MaybeUninit")
                || p.ends_with("rc::Weak")
                || p.ends_with("sync::Weak")
                || p.ends_with("MutexGuard")
                || p.ends_with("RwLockReadGuard")
                || p.ends_with("RwLockWriteGuard")
                || p.ends_with("cell::Ref")
                || p.ends_with("cell::RefMut")
                || p.ends_with("slice::Iter")
                || p.ends_with("slice::IterMut")
                || p.ends_with("ptr::Unique")
                || p.ends_with("pin::Pin") && false;
            if !out.adts.contains(&p) {
                out.adts.push(p);
            }
            if !non_owning {
                for a in args.iter() {
                    if let GenericArgKind::Type(t) = a.kind() {
                        owned_walk(tcx, t, out, depth + 1);
                    }
                }
            }
        }
        ty::Tuple(ts) => {
            for t in ts.iter() {
                owned_walk(tcx, t, out, depth + 1);
            }
        }
        ty::Array(t, _) | ty::Slice(t) => owned_walk(tcx, *t, out, depth + 1),
        ty::Closure(_, args) => {
            for t in args.as_closure().upvar_tys().iter() {
                owned_walk(tcx, t, out, depth + 1);
            }
        }
        ty::Coroutine(..) | ty::CoroutineClosure(..) => {
            out.alias = true;
        }
        ty::Param(_) => out.param = true,
        ty::Dynamic(..) => out.dynamic = true,
        ty::Alias(..) => out.alias = true,
        _ => {}
    }
}

impl<'tcx> Cx<'tcx> {
    fn ty_json(&self, ty: Ty<'tcx>, env: TypingEnv<'tcx>) -> J {
        let tcx = self.tcx;
        let mut owned = Owned { adts: Vec::new(), param: false, dynamic: false, alias: false };
        owned_walk(tcx, ty, &mut owned, 0);
        let mut adts: Vec<String> = Vec::new();
        let mut closures: Vec<String> = Vec::new();
        let mut fndefs: Vec<String> = Vec::new();
        let mut has_dyn = false;
        let mut has_alias = false;
        let mut has_fnptr = false;
        for arg in ty.walk() {
            if let GenericArgKind::Type(t) = arg.kind() {
                match t.kind() {
                    ty::Adt(def, _) => {
                        let p = dpath(tcx, def.did());
                        if !adts.contains(&p) {
                            adts.push(p);
                        }
                    }
                    ty::Closure(did, _) | ty::Coroutine(did, _) | ty::CoroutineClosure(did, _) => {
                        let p = dpath(tcx, *did);
                        if !closures.contains(&p) {
                            closures.push(p);
                        }
                    }
                    ty::FnDef(did, _) => {
                        let p = dpath(tcx, *did);
                        if !fndefs.contains(&p) {
                            fndefs.push(p);
                        }
                    }
                    ty::Dynamic(..) => has_dyn = true,
                    ty::Alias(..) => has_alias = true,
                    ty::FnPtr(..) => has_fnptr = true,
                    _ => {}
                }
            }
        }
        let (kind, head) = match ty.kind() {
            ty::Adt(def, _) => ("adt", dpath(tcx, def.did())),
            ty::Ref(_, inner, m) => (
                if m.is_mut() { "refmut" } else { "ref" },
                match inner.kind() {
                    ty::Adt(def, _) => dpath(tcx, def.did()),
                    _ => String::new(),
                },
            ),
            ty::RawPtr(inner, m) => (
                if m.is_mut() { "ptrmut" } else { "ptrconst" },
                match inner.kind() {
                    ty::Adt(def, _) => dpath(tcx, def.did()),
                    _ => String::new(),
                },
            ),
            ty::Param(_) => ("param", String::new()),
            ty::Closure(did, _) => ("closure", dpath(tcx, *did)),
            ty::Coroutine(did, _) => ("coroutine", dpath(tcx, *did)),
            ty::FnDef(did, _) => ("fndef", dpath(tcx, *did)),
            ty::FnPtr(..) => ("fnptr", String::new()),
            ty::Dynamic(..) => ("dyn", String::new()),
            ty::Tuple(_) => ("tuple", String::new()),
            ty::Alias(..) => ("alias", String::new()),
            ty::Bool | ty::Char | ty::Int(_) | ty::Uint(_) | ty::Float(_) => ("prim", String::new()),
            ty::Never => ("never", String::new()),
            ty::Slice(_) | ty::Array(..) | ty::Str => ("slice", String::new()),
            _ => ("other", String::new()),
        };
        let needs_drop = if ty.has_escaping_bound_vars() { true } else { ty.needs_drop(tcx, env) };
        J::obj(vec![
            ("s", J::s(&format!("{}", ty))),
            ("k", J::s(kind)),
            ("head", J::s(&head)),
            ("adts", J::arr(adts.iter().map(|s| J::s(s)).collect())),
            ("closures", J::arr(closures.iter().map(|s| J::s(s)).collect())),
            ("fndefs", J::arr(fndefs.iter().map(|s| J::s(s)).collect())),
            ("param", J::b(ty.has_param())),
            ("dyn", J::b(has_dyn)),
            ("alias", J::b(has_alias)),
            ("fnptr", J::b(has_fnptr)),
            ("needs_drop", J::b(needs_drop)),
            ("owned", J::arr(owned.adts.iter().map(|s| J::s(s)).collect())),
            ("oparam", J::b(owned.param)),
            ("odyn", J::b(owned.dynamic)),
            ("oalias", J::b(owned.alias)),
        ])
    }

    fn place_json(&self, body: &Body<'tcx>, place: &Place<'tcx>) -> J {
        let tcx = self.tcx;
        let mut proj: Vec<J> = Vec::new();
        let mut pty = mir::PlaceTy::from_ty(body.local_decls[place.local].ty);
        for elem in place.projection.iter() {
            match elem {
                ProjectionElem::Deref => proj.push(J::s("*")),
                ProjectionElem::Field(f, _) => {
                    let name = match pty.ty.kind() {
                        ty::Adt(def, _) => {
                            let vi = pty.variant_index.unwrap_or(rustc_abi::FIRST_VARIANT);
                            let v = def.variant(vi);
                            format!("{}::{}", dpath(tcx, def.did()), v.fields[f].name)
                        }
                        _ => format!(".{}", f.index()),
                    };
                    proj.push(J::obj(vec![("f", J::s(&name)), ("i", J::i(f.index() as i128))]));
                }
                ProjectionElem::Downcast(name, vi) => {
                    let n = match name {
                        Some(s) => s.to_string(),
                        None => format!("{}", vi.index()),
                    };
                    proj.push(J::obj(vec![("v", J::s(&n)), ("i", J::i(vi.index() as i128))]));
                }
                ProjectionElem::Index(l) => {
                    proj.push(J::obj(vec![("idx", J::i(l.index() as i128))]));
                }
                ProjectionElem::ConstantIndex { offset, .. } => {
                    proj.push(J::obj(vec![("cidx", J::i(offset as i128))]));
                }
                ProjectionElem::Subslice { .. } => proj.push(J::s("subslice")),
                ProjectionElem::OpaqueCast(_) => proj.push(J::s("opaquecast")),
                ProjectionElem::UnwrapUnsafeBinder(_) => proj.push(J::s("unwrapbinder")),
            }
            pty = pty.projection_ty(tcx, elem);
        }
        J::obj(vec![("l", J::i(place.local.index() as i128)), ("p", J::arr(proj))])
    }

    fn const_json(&self, c: &ConstOperand<'tcx>, env: TypingEnv<'tcx>) -> J {
        let tcx = self.tcx;
        let cty = c.const_.ty();
        let mut fields: Vec<(&str, J)> = vec![
            ("k", J::s("const")),
            ("text", J::s(&format!("{}", c))),
            ("ty", J::s(&format!("{}", cty))),
        ];
        match cty.kind() {
            ty::FnDef(did, args) => {
                fields.push(("fndef", J::s(&dpath(tcx, *did))));
                fields.push(("fnargs", J::arr(args.iter().map(|a| J::s(&format!("{}", a))).collect())));
            }
            ty::Closure(did, _) => {
                fields.push(("closure", J::s(&dpath(tcx, *did))));
            }
            _ => {}
        }
        // Named constant?
        if let mir::Const::Unevaluated(uv, _) = c.const_ {
            fields.push(("name", J::s(&dpath(tcx, uv.def))));
            if let Some(p) = uv.promoted {
                fields.push(("promoted", J::i(p.index() as i128)));
            }
        }
        if !cty.has_param() || matches!(cty.kind(), ty::Bool | ty::Int(_) | ty::Uint(_) | ty::Float(_) | ty::Char) {
            let is_scalar_ty = matches!(
                cty.kind(),
                ty::Bool | ty::Int(_) | ty::Uint(_) | ty::Float(_) | ty::Char
            ) || matches!(cty.kind(), ty::Adt(def, _) if def.is_enum());
            if is_scalar_ty {
                if let Some(si) = c.const_.try_eval_scalar_int(tcx, env) {
                    let size = si.size();
                    let bits = si.to_bits(size);
                    match cty.kind() {
                        ty::Int(_) => {
                            let v = si.to_int(size);
                            fields.push(("val", J::i(v)));
                        }
                        ty::Float(ft) => {
                            let f = match ft.bit_width() {
                                64 => f64::from_bits(bits as u64),
                                32 => f32::from_bits(bits as u32) as f64,
                                _ => f64::NAN,
                            };
                            fields.push(("fval", J::f(f)));
                            fields.push(("val", J::u(bits)));
                        }
                        ty::Adt(def, _) => {
                            // fieldless enum: map discriminant to variant name
                            fields.push(("val", J::u(bits)));
                            for (vi, d) in def.discriminants(tcx) {
                                if d.val == bits {
                                    fields.push(("variant", J::s(&def.variant(vi).name.to_string())));
                                }
                            }
                        }
                        _ => fields.push(("val", J::u(bits))),
                    }
                }
            }
        }
        J::obj(fields)
    }

    fn operand_json(&self, body: &Body<'tcx>, op: &Operand<'tcx>, env: TypingEnv<'tcx>) -> J {
        match op {
            Operand::Copy(p) => {
                J::obj(vec![("k", J::s("copy")), ("place", self.place_json(body, p))])
            }
            Operand::Move(p) => {
                J::obj(vec![("k", J::s("move")), ("place", self.place_json(body, p))])
            }
            Operand::Constant(c) => self.const_json(c, env),
            #[allow(unreachable_patterns)]
            _ => J::obj(vec![("k", J::s("other")), ("text", J::s(&format!("{:?}", op)))]),
        }
    }

    fn callee_json(&self, func: &Operand<'tcx>, body: &Body<'tcx>, env: TypingEnv<'tcx>) -> J {
        let tcx = self.tcx;
        let fty = func.ty(&body.local_decls, tcx);
        match fty.kind() {
            ty::FnDef(did, args) => {
                let mut fields: Vec<(&str, J)> = Vec::new();
                fields.push(("path", J::s(&dpath(tcx, *did))));
                fields.push(("full", J::s(&tcx.def_path_str_with_args(*did, args))));
                let mut arg_tys: Vec<J> = Vec::new();
                for a in args.iter() {
                    if let GenericArgKind::Type(t) = a.kind() {
                        arg_tys.push(self.ty_json(t, env));
                    }
                }
                fields.push(("targs", J::arr(arg_tys)));
                // Trait method?
                let trait_did = tcx.trait_of_assoc(*did);
                if let Some(td) = trait_did {
                    fields.push(("trait", J::s(&dpath(tcx, td))));
                    fields.push(("method", J::s(&tcx.opt_item_name(*did).map(|n| n.to_string()).unwrap_or_default())));
                    if args.len() > 0 {
                        if let Some(st) = args.get(0).and_then(|a| a.as_type()) {
                            fields.push(("self_ty", self.ty_json(st, env)));
                        }
                    }
                } else if let Some(name) = tcx.opt_item_name(*did) {
                    fields.push(("method", J::s(&name.to_string())));
                }
                if let Some(impl_did) = tcx.impl_of_assoc(*did) {
                    let st = tcx.type_of(impl_did).instantiate_identity().skip_norm_wip();
                    fields.push(("impl_self", J::s(&format!("{}", st))));
                    if let ty::Adt(def, _) = st.kind() {
                        fields.push(("impl_adt", J::s(&dpath(tcx, def.did()))));
                    }
                }
                fields.push(("local", J::b(did.is_local())));
                // Resolution
                let args_erased = tcx.erase_and_anonymize_regions(*args);
                match Instance::try_resolve(tcx, env, *did, args_erased) {
                    Ok(Some(inst)) => {
                        let rd = inst.def_id();
                        let kind = match inst.def {
                            ty::InstanceKind::Item(_) => "item",
                            ty::InstanceKind::Virtual(..) => "virtual",
                            ty::InstanceKind::Intrinsic(_) => "intrinsic",
                            ty::InstanceKind::ClosureOnceShim { .. } => "closure_once_shim",
                            ty::InstanceKind::FnPtrShim(..) => "fnptr_shim",
                            ty::InstanceKind::DropGlue(..) => "drop_glue",
                            ty::InstanceKind::CloneShim(..) => "clone_shim",
                            ty::InstanceKind::ReifyShim(..) => "reify_shim",
                            ty::InstanceKind::VTableShim(..) => "vtable_shim",
                            _ => "other_shim",
                        };
                        fields.push(("rkind", J::s(kind)));
                        fields.push(("resolved", J::s(&dpath(tcx, rd))));
                        fields.push(("rlocal", J::b(rd.is_local())));
                        // When resolution landed on a trait's *default/required* method
                        // (no impl selected) it is still generic dispatch.
                        if let ty::InstanceKind::Item(_) = inst.def {
                            if tcx.trait_of_assoc(rd).is_some() && trait_did.is_some() {
                                fields.push(("rtrait_default", J::b(true)));
                            }
                        }
                    }
                    Ok(None) => {
                        fields.push(("rkind", J::s("unresolved")));
                    }
                    Err(_) => {
                        fields.push(("rkind", J::s("error")));
                    }
                }
                if tcx.is_intrinsic(*did, sym::transmute) {
                    fields.push(("intrinsic", J::s("transmute")));
                }
                J::obj(fields)
            }
            _ => {
                let mut fields: Vec<(&str, J)> = Vec::new();
                fields.push(("path", J::s("<indirect>")));
                fields.push(("rkind", J::s("indirect")));
                fields.push(("fty", self.ty_json(fty, env)));
                fields.push(("op", self.operand_json(body, func, env)));
                J::obj(fields)
            }
        }
    }

    fn unwind_json(&self, u: &UnwindAction) -> J {
        match u {
            UnwindAction::Continue => J::s("continue"),
            UnwindAction::Unreachable => J::s("unreachable"),
            UnwindAction::Terminate(_) => J::s("terminate"),
            UnwindAction::Cleanup(bb) => J::i(bb.index() as i128),
        }
    }

    fn rvalue_json(&self, body: &Body<'tcx>, rv: &Rvalue<'tcx>, env: TypingEnv<'tcx>) -> J {
        let tcx = self.tcx;
        match rv {
            Rvalue::Use(op, ..) => J::obj(vec![("k", J::s("use")), ("op", self.operand_json(body, op, env))]),
            Rvalue::Repeat(op, _) => {
                J::obj(vec![("k", J::s("repeat")), ("op", self.operand_json(body, op, env))])
            }
            Rvalue::Ref(_, bk, p) => {
                let m = match bk {
                    BorrowKind::Shared => "shared",
                    BorrowKind::Fake(_) => "fake",
                    BorrowKind::Mut { .. } => "mut",
                };
                J::obj(vec![("k", J::s("ref")), ("bk", J::s(m)), ("place", self.place_json(body, p))])
            }
            Rvalue::ThreadLocalRef(did) => {
                J::obj(vec![("k", J::s("tlref")), ("def", J::s(&dpath(tcx, *did)))])
            }
            Rvalue::RawPtr(kind, p) => {
                let m = format!("{:?}", kind);
                J::obj(vec![("k", J::s("rawptr")), ("bk", J::s(&m)), ("place", self.place_json(body, p))])
            }
            Rvalue::Cast(ck, op, ty) => {
                let from = op.ty(&body.local_decls, tcx);
                let from_e = tcx.erase_and_anonymize_regions(from);
                let to_e = tcx.erase_and_anonymize_regions(*ty);
                J::obj(vec![
                    ("k", J::s("cast")),
                    ("ck", J::s(&format!("{:?}", ck))),
                    ("op", self.operand_json(body, op, env)),
                    ("from", self.ty_json(from, env)),
                    ("to", self.ty_json(*ty, env)),
                    ("same_modulo_regions", J::b(from_e == to_e)),
                ])
            }
            Rvalue::BinaryOp(op, ab) => J::obj(vec![
                ("k", J::s("binop")),
                ("op", J::s(&format!("{:?}", op))),
                ("a", self.operand_json(body, &ab.0, env)),
                ("b", self.operand_json(body, &ab.1, env)),
            ]),
            Rvalue::UnaryOp(op, a) => J::obj(vec![
                ("k", J::s("unop")),
                ("op", J::s(&format!("{:?}", op))),
                ("a", self.operand_json(body, a, env)),
            ]),
            Rvalue::Discriminant(p) => {
                J::obj(vec![("k", J::s("discr")), ("place", self.place_json(body, p))])
            }
            Rvalue::Aggregate(kind, ops) => {
                let mut fields: Vec<(&str, J)> = vec![("k", J::s("aggr"))];
                match &**kind {
                    AggregateKind::Adt(did, vi, _, _, _) => {
                        let def = tcx.adt_def(*did);
                        fields.push(("adt", J::s(&dpath(tcx, *did))));
                        fields.push(("variant", J::s(&def.variant(*vi).name.to_string())));
                        fields.push(("vidx", J::i(vi.index() as i128)));
                        let names: Vec<J> =
                            def.variant(*vi).fields.iter().map(|f| J::s(&f.name.to_string())).collect();
                        fields.push(("fields", J::arr(names)));
                    }
                    AggregateKind::Closure(did, _) => {
                        fields.push(("closure", J::s(&dpath(tcx, *did))));
                    }
                    AggregateKind::Coroutine(did, _) => {
                        fields.push(("closure", J::s(&dpath(tcx, *did))));
                        fields.push(("coroutine", J::b(true)));
                    }
                    AggregateKind::CoroutineClosure(did, _) => {
                        fields.push(("closure", J::s(&dpath(tcx, *did))));
                    }
                    AggregateKind::Tuple => fields.push(("tuple", J::b(true))),
                    AggregateKind::Array(_) => fields.push(("array", J::b(true))),
                    AggregateKind::RawPtr(..) => fields.push(("rawptr", J::b(true))),
                }
                fields.push(("ops", J::arr(ops.iter().map(|o| self.operand_json(body, o, env)).collect())));
                J::obj(fields)
            }
            Rvalue::CopyForDeref(p) => {
                J::obj(vec![("k", J::s("use")), ("op", J::obj(vec![("k", J::s("copy")), ("place", self.place_json(body, p))]))])
            }
            _ => J::obj(vec![("k", J::s("other")), ("text", J::s(&format!("{:?}", rv)))]),
        }
    }

    fn body_json(&self, def: LocalDefId, body: &Body<'tcx>, mir_kind: &str) -> J {
        let tcx = self.tcx;
        let did = def.to_def_id();
        let env = TypingEnv::post_analysis(tcx, did);
        let mut fields: Vec<(&str, J)> = Vec::new();
        fields.push(("path", J::s(&dpath(tcx, did))));
        fields.push(("mir", J::s(mir_kind)));
        fields.push(("def_kind", J::s(&format!("{:?}", tcx.def_kind(did)))));
        fields.push(("span", span_json(tcx, body.span)));
        fields.push(("coroutine", J::b(tcx.is_coroutine(did))));
        fields.push(("arg_count", J::i(body.arg_count as i128)));
        let dk = tcx.def_kind(did);
        if matches!(dk, DefKind::Fn | DefKind::AssocFn) {
            let sig = tcx.fn_sig(did).instantiate_identity().skip_norm_wip().skip_binder();
            fields.push(("unsafe", J::b(sig.safety().is_unsafe())));
            fields.push(("vis", J::s(&format!("{:?}", tcx.visibility(did)))));
            fields.push(("sig", J::s(&format!("{}", sig))));
            let preds = tcx.predicates_of(did).instantiate_identity(tcx);
            let ps: Vec<J> = preds.predicates.iter().map(|p| J::s(&format!("{}", p.skip_norm_wip()))).collect();
            fields.push(("preds", J::arr(ps)));
        }
        // parent item (for closures: the enclosing fn)
        let parent = tcx.typeck_root_def_id(did);
        fields.push(("root", J::s(&dpath(tcx, parent))));
        if let Some(impl_did) = tcx.impl_of_assoc(parent) {
            let st = tcx.type_of(impl_did).instantiate_identity().skip_norm_wip();
            fields.push(("impl_self", J::s(&format!("{}", st))));
            if let ty::Adt(adef, _) = st.kind() {
                fields.push(("impl_adt", J::s(&dpath(tcx, adef.did()))));
            }
            if let Some(tr) = tcx.impl_opt_trait_ref(impl_did) {
                let tr = tr.instantiate_identity().skip_norm_wip();
                fields.push(("impl_trait", J::s(&dpath(tcx, tr.def_id))));
            }
        }
        if let Some(name) = tcx.opt_item_name(did) {
            fields.push(("name", J::s(&name.to_string())));
        }

        // locals
        let mut locals: Vec<J> = Vec::new();
        let mut names: Vec<Option<String>> = vec![None; body.local_decls.len()];
        for vdi in body.var_debug_info.iter() {
            if let VarDebugInfoContents::Place(p) = &vdi.value {
                if p.projection.is_empty() {
                    names[p.local.index()] = Some(vdi.name.to_string());
                }
            }
        }
        for (l, decl) in body.local_decls.iter_enumerated() {
            let mut lf: Vec<(&str, J)> = vec![("ty", self.ty_json(decl.ty, env))];
            if let Some(n) = &names[l.index()] {
                lf.push(("name", J::s(n)));
            }
            lf.push(("line", span_json(tcx, decl.source_info.span)));
            locals.push(J::obj(lf));
        }
        fields.push(("locals", J::arr(locals)));
        // closure upvar debug info (names for captured fields)
        let mut upvars: Vec<J> = Vec::new();
        for vdi in body.var_debug_info.iter() {
            if let VarDebugInfoContents::Place(p) = &vdi.value {
                if !p.projection.is_empty() {
                    upvars.push(J::obj(vec![
                        ("name", J::s(&vdi.name.to_string())),
                        ("place", self.place_json(body, p)),
                    ]));
                }
            }
        }
        fields.push(("upvars", J::arr(upvars)));

        // blocks
        let mut blocks: Vec<J> = Vec::new();
        for (_bb, data) in body.basic_blocks.iter_enumerated() {
            let mut stmts: Vec<J> = Vec::new();
            for st in data.statements.iter() {
                let line = span_json(tcx, st.source_info.span);
                match &st.kind {
                    StatementKind::Assign(b) => {
                        let (place, rv) = &**b;
                        stmts.push(J::obj(vec![
                            ("k", J::s("assign")),
                            ("place", self.place_json(body, place)),
                            ("rv", self.rvalue_json(body, rv, env)),
                            ("span", line),
                            ("text", J::s(&format!("{:?}", st))),
                        ]));
                    }
                    StatementKind::SetDiscriminant { place, variant_index } => {
                        stmts.push(J::obj(vec![
                            ("k", J::s("setdiscr")),
                            ("place", self.place_json(body, place)),
                            ("vidx", J::i(variant_index.index() as i128)),
                            ("span", line),
                            ("text", J::s(&format!("{:?}", st))),
                        ]));
                    }
                    StatementKind::StorageDead(l) => {
                        stmts.push(J::obj(vec![("k", J::s("dead")), ("l", J::i(l.index() as i128))]));
                    }
                    StatementKind::StorageLive(l) => {
                        stmts.push(J::obj(vec![("k", J::s("live")), ("l", J::i(l.index() as i128))]));
                    }
                    StatementKind::Intrinsic(i) => {
                        stmts.push(J::obj(vec![
                            ("k", J::s("intrinsic")),
                            ("span", line),
                            ("text", J::s(&format!("{:?}", i))),
                        ]));
                    }
                    _ => {}
                }
            }
            let term = data.terminator();
            let tline = span_json(tcx, term.source_info.span);
            let mut tf: Vec<(&str, J)> = vec![("span", tline)];
            match &term.kind {
                TerminatorKind::Goto { target } => {
                    tf.push(("k", J::s("goto")));
                    tf.push(("target", J::i(target.index() as i128)));
                }
                TerminatorKind::SwitchInt { discr, targets } => {
                    tf.push(("k", J::s("switch")));
                    tf.push(("discr", self.operand_json(body, discr, env)));
                    let mut arms: Vec<J> = Vec::new();
                    for (v, t) in targets.iter() {
                        arms.push(J::arr(vec![J::u(v), J::i(t.index() as i128)]));
                    }
                    tf.push(("arms", J::arr(arms)));
                    tf.push(("otherwise", J::i(targets.otherwise().index() as i128)));
                }
                TerminatorKind::UnwindResume => tf.push(("k", J::s("resume"))),
                TerminatorKind::UnwindTerminate(_) => tf.push(("k", J::s("terminate"))),
                TerminatorKind::Return => tf.push(("k", J::s("return"))),
                TerminatorKind::Unreachable => tf.push(("k", J::s("unreachable"))),
                TerminatorKind::Drop { place, target, unwind, .. } => {
                    tf.push(("k", J::s("drop")));
                    tf.push(("place", self.place_json(body, place)));
                    let pty = place.ty(&body.local_decls, tcx).ty;
                    tf.push(("ty", self.ty_json(pty, env)));
                    tf.push(("target", J::i(target.index() as i128)));
                    tf.push(("unwind", self.unwind_json(unwind)));
                }
                TerminatorKind::Call { func, args, destination, target, unwind, fn_span, .. } => {
                    tf.push(("k", J::s("call")));
                    tf.push(("callee", self.callee_json(func, body, env)));
                    tf.push((
                        "args",
                        J::arr(args.iter().map(|a| self.operand_json(body, &a.node, env)).collect()),
                    ));
                    tf.push(("dest", self.place_json(body, destination)));
                    match target {
                        Some(t) => tf.push(("target", J::i(t.index() as i128))),
                        None => tf.push(("target", J::Null)),
                    }
                    tf.push(("unwind", self.unwind_json(unwind)));
                    tf.push(("fn_span", span_json(tcx, *fn_span)));
                }
                TerminatorKind::TailCall { func, args, .. } => {
                    tf.push(("k", J::s("tailcall")));
                    tf.push(("callee", self.callee_json(func, body, env)));
                    tf.push((
                        "args",
                        J::arr(args.iter().map(|a| self.operand_json(body, &a.node, env)).collect()),
                    ));
                }
                TerminatorKind::Assert { cond, expected, target, unwind, msg } => {
                    tf.push(("k", J::s("assert")));
                    tf.push(("cond", self.operand_json(body, cond, env)));
                    tf.push(("expected", J::b(*expected)));
                    tf.push(("target", J::i(target.index() as i128)));
                    tf.push(("unwind", self.unwind_json(unwind)));
                    let kind = match &**msg {
                        AssertKind::BoundsCheck { .. } => "bounds",
                        AssertKind::Overflow(..) => "overflow",
                        AssertKind::OverflowNeg(_) => "overflow_neg",
                        AssertKind::DivisionByZero(_) => "div0",
                        AssertKind::RemainderByZero(_) => "rem0",
                        AssertKind::MisalignedPointerDereference { .. } => "misaligned",
                        AssertKind::NullPointerDereference => "nullptr",
                        _ => "other",
                    };
                    tf.push(("msg", J::s(kind)));
                }
                TerminatorKind::Yield { value, resume, drop, .. } => {
                    tf.push(("k", J::s("yield")));
                    tf.push(("value", self.operand_json(body, value, env)));
                    tf.push(("target", J::i(resume.index() as i128)));
                    match drop {
                        Some(d) => tf.push(("drop", J::i(d.index() as i128))),
                        None => tf.push(("drop", J::Null)),
                    }
                }
                TerminatorKind::CoroutineDrop => tf.push(("k", J::s("coroutine_drop"))),
                TerminatorKind::FalseEdge { real_target, .. } => {
                    tf.push(("k", J::s("goto")));
                    tf.push(("target", J::i(real_target.index() as i128)));
                }
                TerminatorKind::FalseUnwind { real_target, .. } => {
                    tf.push(("k", J::s("goto")));
                    tf.push(("target", J::i(real_target.index() as i128)));
                }
                TerminatorKind::InlineAsm { targets, .. } => {
                    tf.push(("k", J::s("asm")));
                    tf.push((
                        "targets",
                        J::arr(targets.iter().map(|t| J::i(t.index() as i128)).collect()),
                    ));
                }
            }
            tf.push(("text", J::s(&format!("{:?}", term.kind))));
            blocks.push(J::obj(vec![
                ("cleanup", J::b(data.is_cleanup)),
                ("stmts", J::arr(stmts)),
                ("term", J::obj(tf)),
            ]));
        }
        fields.push(("blocks", J::arr(blocks)));
        J::obj(fields)
    }
}

fn trait_matrix<'tcx>(tcx: TyCtxt<'tcx>, owner: DefId, ty: Ty<'tcx>) -> Vec<(&'static str, J)> {
    let env = TypingEnv::post_analysis(tcx, owner);
    let (infcx, penv) = tcx.infer_ctxt().build_with_typing_env(env);
    let mut out: Vec<(&'static str, J)> = Vec::new();
    let li = tcx.lang_items();
    let traits: Vec<(&'static str, Option<DefId>)> = vec![
        ("Send", tcx.get_diagnostic_item(sym::Send)),
        ("Sync", li.sync_trait()),
        ("Clone", li.clone_trait()),
        ("Copy", li.copy_trait()),
        ("Unpin", li.unpin_trait()),
        ("Deref", li.deref_trait()),
        ("DerefMut", li.deref_mut_trait()),
        ("UnwindSafe", tcx.get_diagnostic_item(sym::unwind_safe_trait)),
        ("RefUnwindSafe", tcx.get_diagnostic_item(sym::ref_unwind_safe_trait)),
        ("Sized", li.sized_trait()),
    ];
    for (name, td) in traits {
        match td {
            Some(td) => {
                let r = infcx.type_implements_trait(td, [ty], penv).must_apply_modulo_regions();
                out.push((name, J::b(r)));
            }
            None => out.push((name, J::Null)),
        }
    }
    out
}

fn dump_crate<'tcx>(tcx: TyCtxt<'tcx>) -> J {
    let cx = Cx { tcx };
    let mut bodies: Vec<J> = Vec::new();
    let mut probes: Vec<J> = Vec::new();
    let mut missing: Vec<J> = Vec::new();

    // Coroutine bodies captured in the mir_promoted provider.
    let stash: Vec<(LocalDefId, usize)> = std::mem::take(&mut *STASH.lock().unwrap());
    let mut stashed: std::collections::HashMap<LocalDefId, usize> = std::collections::HashMap::new();
    for (d, p) in stash {
        stashed.insert(d, p);
    }

    for def in tcx.hir_body_owners() {
        let did = def.to_def_id();
        let dk = tcx.def_kind(did);
        if !matches!(dk, DefKind::Fn | DefKind::AssocFn | DefKind::Closure | DefKind::SyntheticCoroutineBody) {
            continue;
        }
        if tcx.is_coroutine(did) {
            if let Some(p) = stashed.get(&def) {
                // SAFETY: pointer produced by Box::into_raw in my_mir_promoted during this
                // compilation session; the arena it refers to is alive.
                let body: &Body<'tcx> = unsafe { &*(*p as *const Body<'tcx>) };
                bodies.push(cx.body_json(def, body, "promoted"));
            } else {
                missing.push(J::s(&dpath(tcx, did)));
            }
            continue;
        }
        // const fns are fine too
        let steal = tcx.mir_drops_elaborated_and_const_checked(def);
        if steal.is_stolen() {
            missing.push(J::s(&dpath(tcx, did)));
            continue;
        }
        let body = steal.borrow();
        let mut bj = cx.body_json(def, &body, "elab");
        // promoted constants: which named constants / literals each promoted body mentions
        let mut proms: Vec<J> = Vec::new();
        for (pi, pbody) in tcx.promoted_mir(did).iter_enumerated() {
            let mut names: Vec<J> = Vec::new();
            for data in pbody.basic_blocks.iter() {
                for st in data.statements.iter() {
                    if let StatementKind::Assign(b) = &st.kind {
                        let mut ops: Vec<&Operand<'tcx>> = Vec::new();
                        match &b.1 {
                            Rvalue::Use(op, ..) | Rvalue::Cast(_, op, _) | Rvalue::Repeat(op, _) => ops.push(op),
                            Rvalue::Aggregate(_, os) => ops.extend(os.iter()),
                            Rvalue::BinaryOp(_, ab) => { ops.push(&ab.0); ops.push(&ab.1); }
                            Rvalue::UnaryOp(_, a) => ops.push(a),
                            _ => {}
                        }
                        for op in ops {
                            if let Operand::Constant(c) = op {
                                let mut f: Vec<(&str, J)> = vec![("text", J::s(&format!("{:?}", c.const_))), ("disp", J::s(&format!("{}", c.const_)))];
                                if let mir::Const::Unevaluated(uv, _) = c.const_ {
                                    f.push(("name", J::s(&dpath(tcx, uv.def))));
                                }
                                names.push(J::obj(f));
                            }
                        }
                    }
                }
            }
            proms.push(J::obj(vec![("idx", J::i(pi.index() as i128)), ("consts", J::arr(names))]));
        }
        if let J::Obj(ref mut v) = bj {
            v.push(("promoted".to_string(), J::arr(proms)));
        }
        bodies.push(bj);

        // probe calls
        for data in body.basic_blocks.iter() {
            if let TerminatorKind::Call { func, args, .. } = &data.terminator().kind {
                let fty = func.ty(&body.local_decls, tcx);
                if let ty::FnDef(fdid, fargs) = fty.kind() {
                    if tcx.opt_item_name(*fdid).map(|n| n.as_str() == "__factgen_probe").unwrap_or(false) {
                        if let Some(t) = fargs.get(0).and_then(|a| a.as_type()) {
                            let mut id = String::new();
                            if let Some(a0) = args.get(0) {
                                if let Operand::Constant(c) = &a0.node {
                                    id = format!("{}", c);
                                    if let Some(r) = id.strip_prefix("const \"") {
                                        id = r.trim_end_matches('"').to_string();
                                    }
                                }
                            }
                            let mut f: Vec<(&str, J)> = vec![
                                ("id", J::s(&id)),
                                ("ty", J::s(&format!("{}", t))),
                                ("in", J::s(&dpath(tcx, did))),
                            ];
                            f.extend(trait_matrix(tcx, did, t));
                            probes.push(J::obj(f));
                        }
                    }
                }
            }
        }
    }

    // ADTs, impls, statics, consts
    let mut adts: Vec<J> = Vec::new();
    let mut impls: Vec<J> = Vec::new();
    let mut statics: Vec<J> = Vec::new();
    let mut fns: Vec<J> = Vec::new();
    for def in tcx.hir_crate_items(()).definitions() {
        let did = def.to_def_id();
        match tcx.def_kind(did) {
            DefKind::Struct | DefKind::Enum | DefKind::Union => {
                let adt = tcx.adt_def(did);
                let mut variants: Vec<J> = Vec::new();
                for v in adt.variants().iter() {
                    let fs: Vec<J> = v
                        .fields
                        .iter()
                        .map(|f| {
                            let fty = tcx.type_of(f.did).instantiate_identity().skip_norm_wip();
                            J::obj(vec![
                                ("name", J::s(&f.name.to_string())),
                                ("ty", cx.ty_json(fty, TypingEnv::post_analysis(tcx, did))),
                                ("vis", J::s(&format!("{:?}", f.vis))),
                            ])
                        })
                        .collect();
                    variants.push(J::obj(vec![("name", J::s(&v.name.to_string())), ("fields", J::arr(fs))]));
                }
                adts.push(J::obj(vec![
                    ("path", J::s(&dpath(tcx, did))),
                    ("kind", J::s(&format!("{:?}", tcx.def_kind(did)))),
                    ("vis", J::s(&format!("{:?}", tcx.visibility(did)))),
                    ("span", span_json(tcx, tcx.def_span(did))),
                    ("variants", J::arr(variants)),
                ]));
            }
            DefKind::Impl { of_trait } => {
                let st = tcx.type_of(did).instantiate_identity().skip_norm_wip();
                let mut f: Vec<(&str, J)> = vec![
                    ("self", J::s(&format!("{}", st))),
                    ("span", span_json(tcx, tcx.def_span(did))),
                ];
                if let ty::Adt(adef, _) = st.kind() {
                    f.push(("self_adt", J::s(&dpath(tcx, adef.did()))));
                }
                if of_trait {
                    let hdr = tcx.impl_trait_header(did);
                    let tr = hdr.trait_ref.instantiate_identity().skip_norm_wip();
                    f.push(("trait", J::s(&dpath(tcx, tr.def_id))));
                    f.push(("trait_ref", J::s(&format!("{}", tr))));
                    f.push(("unsafe", J::b(hdr.safety.is_unsafe())));
                    f.push(("polarity", J::s(&format!("{:?}", hdr.polarity))));
                }
                let preds = tcx.predicates_of(did).instantiate_identity(tcx);
                let ps: Vec<J> =
                    preds.predicates.iter().map(|p| J::s(&format!("{}", p.skip_norm_wip()))).collect();
                f.push(("preds", J::arr(ps)));
                let items: Vec<J> = tcx
                    .associated_item_def_ids(did)
                    .iter()
                    .map(|d| J::s(&tcx.opt_item_name(*d).map(|n| n.to_string()).unwrap_or_default()))
                    .collect();
                f.push(("items", J::arr(items)));
                impls.push(J::obj(f));
            }
            DefKind::Static { .. } | DefKind::Const { .. } => {
                let t = tcx.type_of(did).instantiate_identity().skip_norm_wip();
                statics.push(J::obj(vec![
                    ("path", J::s(&dpath(tcx, did))),
                    ("kind", J::s(&format!("{:?}", tcx.def_kind(did)))),
                    ("ty", cx.ty_json(t, TypingEnv::post_analysis(tcx, did))),
                    ("span", span_json(tcx, tcx.def_span(did))),
                ]));
            }
            DefKind::Fn | DefKind::AssocFn => {
                // signature-only record (also covers trait method declarations without body)
                let sig = tcx.fn_sig(did).instantiate_identity().skip_norm_wip().skip_binder();
                let preds = tcx.predicates_of(did).instantiate_identity(tcx);
                let ps: Vec<J> =
                    preds.predicates.iter().map(|p| J::s(&format!("{}", p.skip_norm_wip()))).collect();
                fns.push(J::obj(vec![
                    ("path", J::s(&dpath(tcx, did))),
                    ("unsafe", J::b(sig.safety().is_unsafe())),
                    ("vis", J::s(&format!("{:?}", tcx.visibility(did)))),
                    ("sig", J::s(&format!("{}", sig))),
                    ("preds", J::arr(ps)),
                    ("span", span_json(tcx, tcx.def_span(did))),
                ]));
            }
            _ => {}
        }
    }

    J::obj(vec![
        ("crate", J::s(&tcx.crate_name(rustc_span::def_id::LOCAL_CRATE).to_string())),
        ("schema", J::i(1)),
        ("bodies", J::arr(bodies)),
        ("adts", J::arr(adts)),
        ("impls", J::arr(impls)),
        ("statics", J::arr(statics)),
        ("fns", J::arr(fns)),
        ("probes", J::arr(probes)),
        ("missing", J::arr(missing)),
    ])
}

fn main() {
    let mut args: Vec<String> = std::env::args().collect();
    // As RUSTC_WORKSPACE_WRAPPER: argv[1] is the path to the real rustc. Drop it.
    if args.len() > 1 && (args[1].ends_with("rustc") || args[1].contains("/rustc")) {
        args.remove(1);
    }
    let out_dir = std::env::var("FACTGEN_OUT").ok();
    let wanted: Vec<String> = std::env::var("FACTGEN_CRATES")
        .unwrap_or_default()
        .split(',')
        .filter(|s| !s.is_empty())
        .map(|s| s.replace('-', "_"))
        .collect();
    let mut crate_name: Option<String> = None;
    let mut is_test = false;
    let mut crate_type_lib = false;
    let mut i = 0;
    while i < args.len() {
        if args[i] == "--crate-name" && i + 1 < args.len() {
            crate_name = Some(args[i + 1].clone());
        }
        if args[i] == "--test" {
            is_test = true;
        }
        if args[i] == "--crate-type" && i + 1 < args.len() {
            let t = &args[i + 1];
            if t == "lib" || t == "rlib" {
                crate_type_lib = true;
            }
        }
        i += 1;
    }
    let target = match (&out_dir, &crate_name) {
        (Some(_), Some(n)) => !is_test && crate_type_lib && wanted.iter().any(|w| w == n),
        _ => false,
    };
    if target {
        let mut cb = FactCallbacks { out_dir: out_dir.unwrap() };
        rustc_driver::run_compiler(&args, &mut cb);
    } else {
        struct Nop;
        impl Callbacks for Nop {}
        rustc_driver::run_compiler(&args, &mut Nop);
    }
}

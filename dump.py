#!/usr/bin/env python3
"""dump.py <pkg> <substring> [-v]: print bodies whose path contains substring (debug aid)."""
import sys, os
sys.path.insert(0, os.path.dirname(os.path.abspath(__file__)))
sys.dont_write_bytecode = True
from vf.mir import Program
pkg, sub = sys.argv[1], sys.argv[2]
v = '-v' in sys.argv
listonly = '-l' in sys.argv
p = Program([pkg])
for b in p.bodies:
    if sub in b.path:
        print('=== ', b.path, '|', b.mir, b.loc(), 'args', b.arg_count, 'closure' if b.is_closure else '', 'coroutine' if b.coroutine else '')
        if listonly: continue
        if v:
            for i, l in enumerate(b.locals):
                print(f'   _{i}: {l["ty"]["s"]}  {l.get("name","")}')
        for blk in b.blocks:
            print(f' bb{blk.idx}{" (cleanup)" if blk.cleanup else ""}:')
            for s in blk.stmts:
                if s['k'] in ('assign', 'setdiscr', 'intrinsic'):
                    print('     ', s['text'][:220])
            t = blk.term
            extra = ''
            if t['k'] == 'call':
                c = t['callee']
                extra = f"   [{c.get('rkind')}{' -> '+c['resolved'] if c.get('resolved') and c.get('resolved')!=c.get('path') else ''}] L{t['span']['line']}"
            print('     T:', t['text'][:260], extra)

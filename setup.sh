#!/bin/sh
# Build the fact extractor and warm the fact cache (offline, from files on disk only).
set -e
cd "$(dirname "$0")"
export CARGO_NET_OFFLINE=true
(cd factgen && cargo build --offline)
python3 -B -m vf.setup
